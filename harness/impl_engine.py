"""Implementation side of the engine correspondence: replays cases (JSON on stdin) on the
real bt built from the scratch copy on PYTHONPATH and prints the raw private state of every
node after every operation, in the same line format as the model driver."""
import json
import sys
import warnings

import numpy as np
import pandas as pd

warnings.filterwarnings("ignore")
import bt  # noqa: E402
import bt.core as core  # noqa: E402


def name_of(i):
    return "n%03d" % i


def id_of(name):
    return int(name[1:])


def fx(h):
    if h is None:
        return None
    if isinstance(h, str):
        return float("nan") if h == "nan" else float.fromhex(h)
    return float(h)


def make_comm(spec):
    kind = spec[0]
    if kind == "none":
        return None
    a = fx(spec[1])
    if kind == "flat":
        return lambda q, p: a
    if kind == "pershare":
        return lambda q, p: abs(q) * a
    if kind == "prop":
        return lambda q, p: abs(q) * p * a
    if kind == "maxflat":
        b = fx(spec[2])
        return lambda q, p: max(a, abs(q) * b)
    raise ValueError(kind)


def build_node(spec, top):
    if spec[0] == "sec":
        _, i, cls, fi, mult, lz = spec
        m = fx(mult)
        n = name_of(i)
        if cls == "sec":
            return core.Security(n, multiplier=m, lazy_add=bool(lz))
        if cls == "fi":
            return core.FixedIncomeSecurity(n, multiplier=m, lazy_add=bool(lz))
        if cls == "coupon":
            return core.CouponPayingSecurity(n, multiplier=m, fixed_income=bool(fi), lazy_add=bool(lz))
        if cls == "hedge":
            return core.HedgeSecurity(n, multiplier=m, lazy_add=bool(lz))
        if cls == "couponhedge":
            return core.CouponPayingHedgeSecurity(n, multiplier=m, fixed_income=bool(fi), lazy_add=bool(lz))
        raise ValueError(cls)
    _, i, fi, kids = spec
    children = [build_node(k, False) for k in kids]
    if fi:
        return core.FixedIncomeStrategy(name_of(i), children=children)
    return core.StrategyBase(name_of(i), children=children)


def frame_of(f, dts):
    if f is None:
        return None
    return pd.DataFrame({name_of(k): [fx(x) for x in col] for k, col in f}, index=dts,
                        columns=[name_of(k) for k, _ in f], dtype=float)


def classify(e):
    m = str(e)
    if isinstance(e, KeyError):
        return "EKey"
    if isinstance(e, ZeroDivisionError):
        if "Last notional value" in m:
            return "EZeroNotl"
        if "Last value" in m:
            return "EZeroBase"
        if "float division by zero" in m or "division by zero" in m:
            return "EZeroDiv"
        return "EOther:ZeroDivisionError"
    if isinstance(e, AttributeError):
        return "EAttr"
    if isinstance(e, IndexError):
        return "EIndex"
    if isinstance(e, TypeError):
        return "EType"
    table = [("Cannot allocate capital to", "EBadPrice"), ("parentless security", "EParentless"),
             ("latest price is NaN", "ENanPriceOpen"), ("latest coupon is NaN", "ENanCouponOpen"),
             ('"coupons" must be passed', "ECouponsMissing"), ("coupons have not been set", "ECouponsMissing"),
             ("Index of coupons must match", "ECouponIdx"), ("Index of bidoffer must match", "EBidofferIdx"),
             ("Cannot transact at custom prices", "ECustomNoBidoffer"),
             ("Cannot have fixed income strategy child", "EFiChild"), ("already exists", "EDupChild"),
             ("duplicate column names", "EDupColumn"), ("Expecting weights (that sum to 1)", "EValue"), ("not set on target", "EValue"), ("risk not set up", "EValue"),
             ("Singular matrix", "ELinAlg"),
             ("invalid limit -> 1 / limit", "EValue"), ("Potentially infinite loop", "ESizingLoop"),
             ("root search for quantity is stuck", "ESizingStuck"), ("has gotten bigger", "ESizingDiverged")]
    for pat, name in table:
        if pat in m:
            return name
    return "EOther:%s:%s" % (type(e).__name__, m[:80].replace(" ", "_").replace("\n", "_"))


def pf(x):
    x = float(x)
    return "nan" if x != x else x.hex()


def pb(b):
    return "T" if b else "F"


def pl(vals):
    return " ".join(pf(v) for v in vals)


def dump_node(out, path, n, dts):
    def now(x):
        if isinstance(x, int) and x == 0:
            return "-"
        return str(dts.get_loc(x))
    if isinstance(n, core.SecurityBase):
        out.append("%s kind S" % path)
        out.append("%s now %s" % (path, now(n.now)))
        out.append("%s scal %s %s %s %s %s %s %s %s %s %s %s %s %s" % (
            path, pf(n._position), pf(n._last_pos), pf(n._price), pf(n._value), pf(n._notl_value), pf(n._weight),
            pb(n._needupdate), pf(n._outlay), pf(n._bidoffer), pf(n._bidoffer_paid), pf(n._capital),
            pf(getattr(n, "_coupon", 0.0)), pf(getattr(n, "_holding_cost", 0.0))))
        out.append("%s flags %s %s" % (path, pb(n.integer_positions), pb(n._bidoffer_set)))
        if getattr(n, "risk", None):
            out.append("%s risk %s" % (path, " ".join("%d %s" % (int(k[1:]), pf(v)) for k, v in n.risk.items())))
        if n._prices_set:
            out.append("%s priced T" % path)
            out.append("%s h_values %s" % (path, pl(n._values.values)))
            out.append("%s h_positions %s" % (path, pl(n._positions.values)))
            out.append("%s h_notls %s" % (path, pl(n._notl_values.values)))
        else:
            out.append("%s priced F" % path)
        out.append("%s h_outlays %s" % (path, pl(n._outlays.values)))
        if n._bidoffer_set:
            out.append("%s h_bopaid %s" % (path, pl(n._bidoffers_paid.values)))
        if isinstance(n, core.CouponPayingSecurity):
            out.append("%s h_coupons %s" % (path, pl(n._coupon_income.values)))
            out.append("%s h_hcosts %s" % (path, pl(n._holding_costs.values)))
        return
    out.append("%s kind G" % path)
    out.append("%s now %s" % (path, now(n.now)))
    out.append("%s scal %s %s %s %s %s %s %s %s %s %s %s %s" % (
        path, pf(n._capital), pf(n._value), pf(n._notl_value), pf(n._weight), pf(n._price), pf(n._net_flows),
        pf(n._last_value), pf(n._last_notl_value), pf(n._last_price), pf(n._last_fee), pf(n._bidoffer_paid),
        pb(n.bankrupt)))
    out.append("%s flags %s %s %s %s" % (path, pb(n.integer_positions), pb(n._bidoffer_set), pb(n.fixed_income),
                                       pb(n._paper_trade)))
    if getattr(n, "risk", None):
        out.append("%s risk %s" % (path, " ".join("%d %s" % (int(k[1:]), pf(v)) for k, v in n.risk.items())))
    if hasattr(n, "risks"):
        for m in n.risks.columns:
            out.append("%s risks.%d %s" % (path, int(m[1:]), pl(n.risks[m].values)))
    out.append("%s kids %s" % (path, " ".join(str(id_of(c.name)) for c in n._childrenv)))
    out.append("%s lazy %s" % (path, " ".join(str(id_of(k)) for k in n._lazy_children)))
    strat_names = set(n._strat_children)
    out.append("%s univ %s" % (path, " ".join(str(id_of(c)) for c in n._universe.columns if c not in strat_names)))
    out.append("%s hg_prices %s" % (path, pl(n._prices.values)))
    out.append("%s hg_values %s" % (path, pl(n._values.values)))
    out.append("%s hg_notls %s" % (path, pl(n._notl_values.values)))
    out.append("%s hg_cash %s" % (path, pl(n._cash.values)))
    out.append("%s hg_fees %s" % (path, pl(n._fees.values)))
    out.append("%s hg_flows %s" % (path, pl(n._all_flows.values)))
    if n._bidoffer_set:
        out.append("%s hg_bopaid %s" % (path, pl(n._bidoffers_paid.values)))
    for c in n._strat_children:
        out.append("%s ucol.%d %s" % (path, id_of(c), pl(n._universe[c].values)))
    for j, (tnow, res, sel, wts, stat) in enumerate(getattr(n, "_vtrace", [])):
        out.append("%s trace.%d.res %s %s" % (path, j, now(tnow), pb(res)))
        if sel is not None:
            out.append("%s trace.%d.selected %s" % (path, j, " ".join(str(id_of(x)) for x in sel)))
        if wts is not None:
            out.append("%s trace.%d.weights %s" % (path, j, " ".join("%d %s" % (id_of(k), pf(v)) for k, v in wts)))
        if stat is not None:
            out.append("%s trace.%d.stat %s" % (path, j, " ".join("%d %s" % (id_of(k), pf(v)) for k, v in stat)))
    for c in n._childrenv:
        dump_node(out, "%s.%d" % (path, id_of(c.name)), c, dts)
    if n._paper_trade:
        out.append("%s~ stale %s" % (path, pb(n._paper.stale)))
        dump_node(out, path + "~", n._paper, dts)


def dump_tree(out, root, dts):
    out.append("r stale %s" % pb(root.stale))
    dump_node(out, "r", root, dts)


def install_trace():
    """log (now, result, temp) at the end of every top-level stack call; the library code itself is
    not replaced: the wrapper calls the original AlgoStack.__call__"""
    orig = core.AlgoStack.__call__
    if getattr(orig, "_verif_wrapped", False):
        return

    def wrapped(self, target):
        res = orig(self, target)
        if getattr(target, "stack", None) is self:
            tm = target.temp
            sel = list(tm["selected"]) if "selected" in tm else None
            wts = list(tm["weights"].items()) if "weights" in tm else None
            stat = list(tm["stat"].items()) if "stat" in tm and hasattr(tm["stat"], "items") else None
            if not hasattr(target, "_vtrace"):
                target._vtrace = []
            target._vtrace.append((target.now, bool(res), sel, wts, stat))
        return res
    wrapped._verif_wrapped = True
    core.AlgoStack.__call__ = wrapped


def get_node(root, path):
    n = root
    for k in path:
        n = n.children[name_of(k)]
    return n


def series_ok(n):
    """1.0 iff no history accessor of the node hands out a row after the tree's current date"""
    if isinstance(n, core.SecurityBase):
        names = ["prices", "values", "notional_values", "positions", "outlays"]
        if n._bidoffer_set:
            names += ["bidoffers", "bidoffers_paid"]
        if isinstance(n, core.CouponPayingSecurity):
            names = ["coupons", "holding_costs"] + names      # read first: they only refresh the tree
    else:
        names = ["prices", "values", "notional_values", "cash", "fees", "flows"]
        if n._bidoffer_set:
            names += ["bidoffers_paid"]
    series = [getattr(n, nm) for nm in names]
    rnow = n.root.now
    if isinstance(rnow, int):
        return 1.0
    return 1.0 if all(len(x) == 0 or x.index[-1] <= rnow for x in series) else 0.0


def apply_op(root, op, dts):
    kind = op[0]
    if kind == "update":
        d = op[1]
        if d is None:
            root.update(0)
        elif d >= len(dts):
            root.update(dts[-1] + pd.Timedelta(days=d - len(dts) + 1))   # a date outside the index
        else:
            root.update(dts[d])
        return None
    n = get_node(root, op[1])
    if kind == "adjust":
        n.adjust(fx(op[2]), update=bool(op[3]), flow=bool(op[4]), fee=fx(op[5]))
    elif kind == "allocate":
        _, _, a, c, u = op
        if isinstance(n, core.SecurityBase):
            n.allocate(fx(a), update=bool(u))
        elif c is None:
            n.allocate(fx(a), update=bool(u))
        else:
            n.allocate(fx(a), child=name_of(c), update=bool(u))
    elif kind == "transact":
        _, _, q, c, u, pr = op
        if isinstance(n, core.SecurityBase):
            n.transact(fx(q), update=bool(u), price=fx(pr))
        elif c is None:
            n.transact(fx(q), update=bool(u))
        else:
            n.transact(fx(q), child=name_of(c), update=bool(u))
    elif kind == "rebalance":
        _, _, w, c, b, u = op
        if b is None:
            n.rebalance(fx(w), name_of(c), update=bool(u))
        else:
            n.rebalance(fx(w), name_of(c), base=fx(b), update=bool(u))
    elif kind == "close":
        n.close(name_of(op[2]), update=bool(op[3]))
    elif kind == "flatten":
        n.flatten()
    elif kind == "read":
        f = op[2]
        if f == "value":
            return n.value
        if f == "weight":
            return n.weight
        if f == "notl":
            return n.notional_value
        if f == "price":
            return n.price
        if f == "series":
            return series_ok(n)
        raise ValueError(f)
    else:
        raise ValueError(kind)
    return None


def run_case(c, out):
    out.append("CASE %s" % c["name"])
    nrows = c["nrows"]
    dts = pd.date_range("2020-01-01", periods=nrows)
    full = c.get("dump", "all") == "all"
    try:
        data = frame_of(c["prices"], dts)
        if data.columns.duplicated().any():
            raise Exception("data provided has some duplicate column names")
        root = build_node(c["tree"], True)
        root.use_integer_positions(bool(c["intpos"]))
        fn = make_comm(c["comm"])
        if fn is not None:
            root.set_commissions(fn)
        kw = {}
        for k in ("bidoffer", "coupons", "cost_long", "cost_short"):
            f = frame_of(c.get(k), dts)
            if f is not None:
                kw[k] = f
        root.setup(data, **kw)
    except Exception as e:  # noqa: BLE001
        out.append("BUILD err %s" % classify(e))
        out.append("END")
        return
    out.append("BUILD ok")
    if full:
        dump_tree(out, root, dts)
    nops = len(c["ops"])
    for i, op in enumerate(c["ops"]):
        try:
            ret = apply_op(root, op, dts)
        except Exception as e:  # noqa: BLE001
            out.append("OP %d err %s" % (i, classify(e)))
            break
        out.append("OP %d ok %s" % (i, "nan" if ret is None else pf(ret)))
        if full or i == nops - 1:
            dump_tree(out, root, dts)
    out.append("END")


def main():
    cases = json.load(sys.stdin)
    out = []
    for c in cases:
        run_case(c, out)
    sys.stdout.write("\n".join(out) + "\n")


if __name__ == "__main__":
    main()

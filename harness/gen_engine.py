"""Generator of engine-level cases: a tree, data frames and an operation history.
Everything derives from one random.Random instance.  Numbers live on a dyadic grid so that
sums stay exactly representable where that matters, and are emitted as hex floats."""
import random

NAN = "nan"


def hx(x):
    return float(x).hex()


def dy(rng, lo, hi, den=8):
    """a dyadic rational in [lo, hi] with denominator den"""
    return rng.randint(int(lo * den), int(hi * den)) / den


class Profile:
    """knobs of the generator; the default is 'mostly valid'"""

    def __init__(self, **kw):
        self.p_nan = 0.04          # NaN price cell
        self.p_zero_price = 0.01
        self.p_neg_price = 0.005
        self.p_fi_root = 0.25
        self.p_substrat = 0.45
        self.p_lazy = 0.25
        self.p_bidoffer = 0.4
        self.p_comm = 0.6
        self.p_intpos = 0.5
        self.p_bad = 0.03          # malformed op (unknown child, bad date, ...)
        self.max_depth = 2
        self.nrows = (3, 7)
        self.nops = (10, 30)
        self.p_upd_false = 0.3
        self.p_short = 0.3
        self.big_loss = 0.05       # price collapse / spike rows (bankruptcy paths)
        self.__dict__.update(kw)


def gen_comm(rng, prof):
    if rng.random() > prof.p_comm:
        return ["none"]
    k = rng.choice(["flat", "pershare", "prop", "maxflat"])
    if k == "flat":
        return ["flat", hx(dy(rng, 0, 8, 4))]
    if k == "pershare":
        return ["pershare", hx(rng.choice([0.0078125, 0.015625, 0.125, 0.25]))]
    if k == "prop":
        return ["prop", hx(rng.choice([0.0009765625, 0.001953125, 0.0078125, 0.01]))]
    return ["maxflat", hx(dy(rng, 0, 4, 4)), hx(rng.choice([0.0078125, 0.015625, 0.125]))]


def gen_prices(rng, prof, nrows, first_nan=False):
    p = dy(rng, 5, 150, 8)
    col = []
    for r in range(nrows):
        u = rng.random()
        if u < prof.p_nan or (first_nan and r == 0):
            col.append(NAN)
            continue
        if u < prof.p_nan + prof.p_zero_price:
            col.append(hx(0.0))
            continue
        if u < prof.p_nan + prof.p_zero_price + prof.p_neg_price:
            col.append(hx(-dy(rng, 1, 10, 8)))
            continue
        if rng.random() < prof.big_loss:
            p = p * rng.choice([0.125, 0.25, 4.0, 8.0])
        else:
            p = max(0.125, p + dy(rng, -6, 6, 8))
        col.append(hx(p))
    return col


class TreeGen:
    def __init__(self, rng, prof):
        self.rng = rng
        self.prof = prof
        self.next_id = 1
        self.tickers = []          # ids of securities (may be shared between sub-strategies)
        self.coupon_ids = set()

    def new_id(self):
        i = self.next_id
        self.next_id += 1
        return i

    def gen_sec(self, fi_parent, allow_lazy=True):
        rng = self.rng
        # reuse a ticker in another sub-strategy sometimes
        if self.tickers and rng.random() < 0.25:
            i = rng.choice(self.tickers)
        else:
            i = self.new_id()
            self.tickers.append(i)
        if fi_parent:
            cls = rng.choice(["sec", "fi", "coupon", "coupon", "hedge", "couponhedge"])
        else:
            cls = rng.choice(["sec"] * 8 + ["fi", "coupon", "hedge"])
        if i in self.sec_class:
            cls = self.sec_class[i]
        self.sec_class[i] = cls
        fi = rng.random() < 0.8 if cls in ("coupon", "couponhedge") else False
        mult = rng.choice([1.0, 1.0, 1.0, 2.0, 0.5, 10.0])
        lz = allow_lazy and rng.random() < self.prof.p_lazy
        if cls in ("coupon", "couponhedge"):
            self.coupon_ids.add(i)
        return ["sec", i, cls, fi, hx(mult), lz]

    sec_class = None

    def gen_strat(self, depth, fi):
        rng = self.rng
        i = self.new_id()
        nk = rng.randint(1, 4) if depth == 0 else rng.randint(0, 3)
        kids, seen = [], set()
        for _ in range(nk):
            if depth < self.prof.max_depth and rng.random() < self.prof.p_substrat / (depth + 1):
                # a fixed-income child needs a fixed-income parent
                cfi = fi and rng.random() < 0.7
                k = self.gen_strat(depth + 1, cfi)
            else:
                k = self.gen_sec(fi)
            if k[1] in seen:
                continue
            seen.add(k[1])
            kids.append(k)
        return ["strat", i, fi, kids]


def paths_of(tree, path=()):
    """[(path, spec)] for every node"""
    out = [(list(path), tree)]
    if tree[0] == "strat":
        for k in tree[3]:
            out += paths_of(k, path + (k[1],))
    return out


def gen_case(rng, name, prof=None):
    prof = prof or Profile()
    nrows = rng.randint(*prof.nrows)
    tg = TreeGen(rng, prof)
    tg.sec_class = {}
    fi_root = rng.random() < prof.p_fi_root
    tree = tg.gen_strat(0, fi_root)
    extra = [tg.new_id() for _ in range(rng.randint(0, 2))]   # tickers in the data but not in the tree
    all_ids = sorted(set(tg.tickers + extra))
    rng.shuffle(all_ids)
    missing = set()
    if tg.tickers and rng.random() < 0.08:
        missing.add(rng.choice(tg.tickers))                  # a declared ticker with no data column
    prices = [[i, gen_prices(rng, prof, nrows)] for i in all_ids if i not in missing]
    bidoffer = None
    if rng.random() < prof.p_bidoffer:
        bidoffer = [[i, [hx(dy(rng, 0, 2, 8)) for _ in range(nrows)]] for i in all_ids
                    if i not in missing and rng.random() < 0.8]
    coupons = cost_long = cost_short = None
    if tg.coupon_ids:
        def cpn_col():
            return [NAN if rng.random() < 0.03 else hx(dy(rng, 0, 2, 16)) for _ in range(nrows)]
        coupons = [[i, cpn_col()] for i in all_ids if i in tg.coupon_ids or rng.random() < 0.3]
        if rng.random() < 0.5:
            cost_long = [[i, [hx(dy(rng, 0, 1, 16)) for _ in range(nrows)]] for i in all_ids if rng.random() < 0.7]
        if rng.random() < 0.5:
            cost_short = [[i, [hx(dy(rng, 0, 1, 16)) for _ in range(nrows)]] for i in all_ids if rng.random() < 0.7]
    nodes = paths_of(tree)
    strat_paths = [p for p, s in nodes if s[0] == "strat"]
    capital = float(rng.choice([1000, 10000, 100000, 1000000]))
    ops = [["adjust", [], hx(capital), True, True, hx(0.0)], ["update", 0]]
    # fund the sub-strategies (top-down) so that trading inside them has a base to measure returns on
    for sp in sorted(strat_paths, key=len):
        if sp and rng.random() < 0.85:
            ops.append(["allocate", sp[:-1], hx(dy(rng, capital / 16, capital / 4, 4)), sp[-1], True])
    row = 0
    nops = rng.randint(*prof.nops)

    def kid_ids(p):
        spec = dict((tuple(q), s) for q, s in nodes)[tuple(p)]
        return [k[1] for k in spec[3]]

    def pick_child(p):
        ids = kid_ids(p)
        u = rng.random()
        if ids and u < 0.93:
            return rng.choice(ids)
        if u < 0.98 and all_ids:
            return rng.choice(all_ids)      # a ticker not declared under p (default security)
        return tg.next_id + 7               # unknown name without data

    def amount():
        a = dy(rng, 0, capital / 2, 4)
        if rng.random() < prof.p_short:
            a = -a
        if rng.random() < 0.05:
            a = 0.0
        return a

    for _ in range(nops):
        u = rng.random()
        upd = rng.random() > prof.p_upd_false
        p = rng.choice(strat_paths)
        if rng.random() < prof.p_bad:
            bad = rng.choice(["date", "path"])
            if bad == "date":
                ops.append(["update", nrows + rng.randint(0, 2)])
            else:
                ops.append(["close", p, 9999, True])
            continue
        if u < 0.15:
            if row + 1 < nrows and rng.random() < 0.8:
                row += 1
            ops.append(["update", row])
        elif u < 0.22:
            ops.append(["adjust", p, hx(dy(rng, -capital / 8, capital / 4, 4)), upd, rng.random() < 0.6,
                        hx(0.0 if rng.random() < 0.7 else dy(rng, 0, 5, 4))])
        elif u < 0.45:
            node_p, spec = rng.choice(nodes)
            if spec[0] == "sec" and not spec[5] and rng.random() < 0.4:
                ops.append(["allocate", node_p, hx(amount()), None, upd])
            elif rng.random() < 0.3:
                ops.append(["allocate", p, hx(amount()), None, upd])
            else:
                ops.append(["allocate", p, hx(amount()), pick_child(p), upd])
        elif u < 0.57:
            node_p, spec = rng.choice(nodes)
            q = float(rng.randint(-200, 300)) if rng.random() < 0.8 else dy(rng, -50, 50, 8)
            if spec[0] == "sec" and not spec[5] and rng.random() < 0.5:
                price = None
                if rng.random() < 0.3:
                    price = hx(dy(rng, 1, 150, 8))
                ops.append(["transact", node_p, hx(q), None, upd, price])
            elif rng.random() < 0.25:
                ops.append(["transact", p, hx(q), None, upd, None])
            else:
                ops.append(["transact", p, hx(q), pick_child(p), upd, None])
        elif u < 0.77:
            w = rng.randint(-8, 16) / 16.0
            base = None
            if rng.random() < 0.4:
                base = hx(dy(rng, 0, capital, 4))
            ops.append(["rebalance", p, hx(w), pick_child(p), base, upd])
        elif u < 0.85:
            ids = kid_ids(p)
            ops.append(["close", p, rng.choice(ids) if ids else pick_child(p), upd])
        elif u < 0.89:
            ops.append(["flatten", p])
        else:
            node_p, spec = rng.choice(nodes)
            if spec[0] == "sec" and spec[5]:
                node_p = p
            ops.append(["read", node_p, rng.choice(["value", "weight", "notl", "price", "series"])])
    ops.append(["update", row])
    return {"name": name, "nrows": nrows, "intpos": rng.random() < prof.p_intpos, "comm": gen_comm(rng, prof),
            "prices": prices, "bidoffer": bidoffer, "coupons": coupons, "cost_long": cost_long,
            "cost_short": cost_short, "tree": tree, "ops": ops}


def gen_cases(seed, n, prof=None, prefix="e"):
    rng = random.Random(seed)
    return [gen_case(rng, "%s%05d" % (prefix, i), prof) for i in range(n)]

"""Implementation side of the isolation suite (C11).  One process = one interpreter session in which several
backtests are constructed from ONE strategy template and shared data-frame objects, then run in a scripted order.

input : {"sessions": [{"name", "template": tree, "dates", "frames": {key: prices}, "adata", "bidoffer", "coupons", ...,
                       "runs": {id: {"frame": key, "intpos", "comm", "capital", "pyseed"}},
                       "script": [["build", id] | ["run", id] | ["rerun", id]]}]}
output: per run  CASE <session>:<id> + the usual raw dump (after the first run of that backtest);
        per session  CASE <session>:inputs  with  FP template same|changed, FP frame.<key> same|changed,
        FP adata.<k> same|changed, RERUN <id> same|changed"""
import json
import random
import sys
import warnings

import numpy as np
import pandas as pd

warnings.filterwarnings("ignore")
import bt  # noqa: E402
from impl_engine import classify, dump_tree, fx, make_comm, install_trace  # noqa: E402
import impl_backtest as ib  # noqa: E402


def fp_pandas(x):
    h = pd.util.hash_pandas_object(x, index=True).values.tobytes().hex()
    cols = list(map(str, x.columns)) if isinstance(x, pd.DataFrame) else [str(x.name)]
    dt = list(map(str, x.dtypes)) if isinstance(x, pd.DataFrame) else [str(x.dtype)]
    return "PD[%s|%s|%s|%s]" % (",".join(cols), ",".join(dt), len(x), h)


def fingerprint(obj, memo=None, depth=0):
    """canonical description of an object graph (cycles by first-visit number)"""
    memo = {} if memo is None else memo
    if obj is None or isinstance(obj, (bool, int, str, bytes)):
        return repr(obj)
    if isinstance(obj, float):
        return "nan" if obj != obj else obj.hex()
    if isinstance(obj, (np.floating, np.integer, np.bool_)):
        return repr(obj.item())
    if isinstance(obj, (pd.DataFrame, pd.Series)):
        return fp_pandas(obj)
    if isinstance(obj, (pd.Timestamp, pd.DateOffset, pd.Timedelta)):
        return repr(obj)
    if isinstance(obj, pd.Index):
        return "IDX[%s]" % ",".join(map(str, obj))
    if isinstance(obj, np.ndarray):
        return "ND[%s|%s|%s]" % (obj.dtype, obj.shape, obj.tobytes().hex())
    if id(obj) in memo:
        return "ref#%d" % memo[id(obj)]
    memo[id(obj)] = len(memo)
    if depth > 40:
        return "<deep>"
    if isinstance(obj, dict):
        return "{" + ",".join("%s:%s" % (fingerprint(k, memo, depth + 1), fingerprint(v, memo, depth + 1)) for k, v in obj.items()) + "}"
    if isinstance(obj, (list, tuple)):
        return "[" + ",".join(fingerprint(v, memo, depth + 1) for v in obj) + "]"
    if isinstance(obj, (set, frozenset)):
        return "S{" + ",".join(sorted(fingerprint(v, memo, depth + 1) for v in obj)) + "}"
    if callable(obj) and not hasattr(obj, "__dict__"):
        return "fn:%s" % getattr(obj, "__qualname__", type(obj).__name__)
    if hasattr(obj, "__dict__"):
        d = vars(obj)
        return "%s(" % type(obj).__name__ + ",".join("%s=%s" % (k, fingerprint(d[k], memo, depth + 1)) for k in sorted(d)) + ")"
    return "<%s>" % type(obj).__name__


def first_difference(a, b):
    n = min(len(a), len(b))
    for i in range(n):
        if a[i] != b[i]:
            return "%s|<-was / now->|%s" % (a[max(0, i - 60): i + 40].replace(" ", "_"), b[max(0, i - 60): i + 40].replace(" ", "_"))
    return "length %d -> %d" % (len(a), len(b))


def run_session(s, out):
    idx = pd.DatetimeIndex([ib.ts(x) for x in s["dates"]])
    frames = {k: ib.frame_of(v, idx) for k, v in s["frames"].items()}
    template = ib.build_node(s["template"])
    ad = {}
    for k in ib.KW_NAMES:
        f = ib.frame_of(s.get(k), idx)
        if f is not None:
            ad[k] = f
    for k, a in s.get("adata", []):
        ad[ib.key_of(k)] = ib.adata_of(a, idx)
    before = {"template": fingerprint(template)}
    for k, f in frames.items():
        before["frame.%s" % k] = fingerprint(f)
    for k, f in ad.items():
        before["adata.%s" % k] = fingerprint(f)
    before["adata_keys"] = fingerprint(list(ad.keys()))
    objs, dumps, reruns, errors = {}, {}, {}, {}

    def dump(rid):
        lines = []
        dump_tree(lines, objs[rid].strategy, objs[rid].dates)
        return lines
    for step in s["script"]:
        kind, rid = step
        r = s["runs"][rid]
        if kind == "build":
            try:
                objs[rid] = bt.Backtest(template, frames[r["frame"]], initial_capital=fx(r["capital"]),
                                        commissions=make_comm(r["comm"]), integer_positions=bool(r["intpos"]),
                                        additional_data=ad, progress_bar=False)
            except Exception as e:  # noqa: BLE001
                errors[rid] = classify(e)
        elif kind == "run":
            if rid in errors:
                continue
            random.seed(r.get("pyseed", 0))
            np.random.seed(r.get("pyseed", 0))
            try:
                objs[rid].run()
                dumps[rid] = ["OP 0 ok nan"] + dump(rid)
            except Exception as e:  # noqa: BLE001
                errors[rid] = classify(e)
        elif kind == "rerun":
            if rid in errors or rid not in dumps:
                continue
            random.seed(r.get("pyseed", 0) + 1)
            np.random.seed(r.get("pyseed", 0) + 1)
            stats_id = id(objs[rid].stats)
            objs[rid].run()
            again = ["OP 0 ok nan"] + dump(rid)
            reruns[rid] = "same" if (again == dumps[rid] and id(objs[rid].stats) == stats_id and objs[rid].has_run) else "changed"
    for rid in s["runs"]:
        out.append("CASE %s:%s" % (s["name"], rid))
        out.append("BUILD ok")
        if rid in errors:
            out.append("OP 0 err %s" % errors[rid])
        else:
            out.extend(dumps.get(rid, ["OP 0 err ENotRun"]))
        out.append("END")
    out.append("CASE %s:inputs" % s["name"])
    out.append("BUILD ok")
    out.append("OP 0 ok nan")
    after = {"template": fingerprint(template)}
    for k, f in frames.items():
        after["frame.%s" % k] = fingerprint(f)
    for k, f in ad.items():
        after["adata.%s" % k] = fingerprint(f)
    after["adata_keys"] = fingerprint(list(ad.keys()))
    for k in before:
        if before[k] == after.get(k):
            out.append("FP %s same" % k)
        else:
            out.append("FP %s changed %s" % (k, first_difference(before[k], after.get(k, ""))))
    for rid, v in reruns.items():
        out.append("RERUN %s %s" % (rid, v))
    out.append("END")


def main():
    install_trace()
    req = json.load(sys.stdin)
    out = []
    for s in req["sessions"]:
        run_session(s, out)
    sys.stdout.write("\n".join(out) + "\n")


if __name__ == "__main__":
    main()

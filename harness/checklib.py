"""Driver shared by every property check: build, theorem status (Print Assumptions),
correspondence suites, property oracles, known findings, evidence, exit code."""
import json
import os
import re
import shutil
import subprocess
import sys
import time

HERE = os.path.dirname(os.path.abspath(__file__))
sys.path.insert(0, HERE)
import common  # noqa: E402

VERIF = common.VERIF
COQ = os.path.join(VERIF, "coq")

# axioms declared by Coq's standard library itself that the development may depend on
ALLOWED_AXIOMS = {
    "ClassicalDedekindReals.sig_forall_dec",
    "ClassicalDedekindReals.sig_not_dec",
    "FunctionalExtensionality.functional_extensionality_dep",
    "Classical_Prop.classic",
    "Eqdep.Eq_rect_eq.eq_rect_eq",
    "ProofIrrelevance.proof_irrelevance",
}
# kernel primitives that Print Assumptions lists for PrimFloat / Uint63 based terms are not axioms of ours
PRIMITIVE_PREFIXES = ("PrimFloat.", "Uint63.", "PrimInt63.", "FloatOps.", "CarryType.", "FloatAxioms.", "Uint63Axioms.")

TRUSTED_BASE = [
    "Coq 8.16.1 kernel incl. its VM (vm_compute) and primitive floats/ints; no native_compute",
    "axioms per theorem as printed by Print Assumptions (recorded under coverage.assumptions); all are declared by "
    "Coq's standard library: ClassicalDedekindReals.sig_forall_dec, ClassicalDedekindReals.sig_not_dec, "
    "FunctionalExtensionality.functional_extensionality_dep (the classical real numbers of Coq.Reals)",
    "theorems are about the real-number instance of the model (is_zero x := x = 0, i.e. bt's TOL idealised to 0; "
    "np.isclose's atol 1e-8 kept); float rounding is not verified",
    "hand-written Gallina model of bt/core.py, bt/algos.py, bt/backtest.py; tied to /repo by the correspondence check "
    "of this run (same cases on the interpreted working tree and on the float instance of the same model text)",
    "extraction of the float instance: Coq's extraction plugin with ExtrOcamlBasic, ExtrOCamlFloats, ExtrOCamlInt63 "
    "as shipped (no Extract Constant / Extract Inductive of ours), OCaml 4.13.1, coq-core.kernel Float64",
    "hand-written OCaml driver (parsing/printing) and Python harness (generators, implementation driver, comparators, oracles)",
    "pandas / numpy / ffn behaviour is modelled, not verified",
]


def sh(cmd, cwd=None, timeout=3600):
    p = subprocess.run(cmd, shell=True, cwd=cwd, capture_output=True, text=True, timeout=timeout)
    return p.returncode, p.stdout + p.stderr


def build_all():
    """incremental build of the Coq development and of the extracted driver"""
    # one build at a time: checks may be started concurrently, and a build that rewrites .vo files or the extracted
    # binary under another check's feet would make that check fail for no reason of the code under test
    os.makedirs(os.path.join(VERIF, "work"), exist_ok=True)
    lock = os.path.join(VERIF, "work", ".build.lock")
    rc, out = sh("flock %s timeout 3000 make -C %s all 2>&1" % (lock, VERIF), timeout=7200)
    return rc == 0, out


def theorem_status(prop_file):
    """Re-run coqc on the property file (dependencies are compiled) and parse Print Assumptions.
    -> (ok, [ {theorem, axioms:[...], closed:bool} ], raw)"""
    path = os.path.join(COQ, "Props", prop_file)
    if not os.path.exists(path):
        return False, [], "missing " + path
    # compiled to a private directory: the re-check of one property never writes a file another running check reads
    import tempfile
    tmp = tempfile.mkdtemp(prefix="props_", dir=os.path.join(VERIF, "work"))
    try:
        rc, out = sh("timeout 900 coqc -Q . BT -noglob -o %s Props/%s 2>&1"
                     % (os.path.join(tmp, prop_file[:-2] + ".vo"), prop_file), cwd=COQ)
    finally:
        import shutil
        shutil.rmtree(tmp, ignore_errors=True)
    text = open(path).read()
    names = re.findall(r"^Print Assumptions\s+([A-Za-z0-9_']+)\s*\.", text, flags=re.M)
    blocks = []
    cur = None
    for line in out.splitlines():
        if line.startswith("Closed under the global context"):
            blocks.append([])
            cur = None
        elif line.startswith("Axioms:"):
            cur = []
            blocks.append(cur)
        elif cur is not None:
            m = re.match(r"^([A-Za-z_][A-Za-z0-9_.']*)\s*$", line.strip()) or re.match(r"^([A-Za-z_][A-Za-z0-9_.']*)\s+:", line)
            if m and not line.startswith(" "):
                cur.append(m.group(1))
    res = []
    for i, nm in enumerate(names):
        ax = blocks[i] if i < len(blocks) else None
        if ax is None:
            res.append({"theorem": nm, "axioms": None, "ok": False})
        else:
            bad = [a for a in ax if a not in ALLOWED_AXIOMS and not a.startswith(PRIMITIVE_PREFIXES)]
            res.append({"theorem": nm, "axioms": ax, "ok": not bad, "foreign_axioms": bad})
    ok = rc == 0 and len(blocks) == len(names) and all(r["ok"] for r in res)
    return ok, res, out


def forbidden_words():
    """grep gate: no Admitted/admit/Axiom/Parameter/Conjecture/guard switches in the development"""
    rc, out = sh(r"grep -rnE '\b(Admitted|admit|Axiom|Parameter|Conjecture|Unset Guard|bypass_check|Admit Obligations)\b' "
                 r"--include=*.v . | grep -v 'Records.v:.*(\* ' || true", cwd=COQ)
    hits = [ln for ln in out.splitlines() if ln.strip() and "conda" not in ln]
    return hits


def load_known():
    p = os.path.join(VERIF, "known_findings.json")
    if not os.path.exists(p):
        return []
    return json.load(open(p)).get("findings", [])


class Run:
    """accumulates what one check run did; writes evidence and decides the exit code"""

    def __init__(self, pid, tier, seed):
        self.pid, self.tier, self.seed = pid, tier, seed
        self.t0 = time.time()
        self.cov = {"evaluations": 0, "distinct_nontrivial": 0, "samples": [], "rule": "",
                    "traces_validated_against_impl": 0, "bit_drift": 0, "suites": {}}
        self.violations = []      # (replay path, text, found_input: bool)
        self.known_hits = []
        self.known_seen = set()
        self.notes = []

    def add_suite(self, name, stats):
        self.cov["suites"][name] = stats
        self.cov["evaluations"] += stats.get("evaluations", 0)
        self.cov["distinct_nontrivial"] += stats.get("distinct_nontrivial", 0)
        self.cov["traces_validated_against_impl"] += stats.get("traces_validated_against_impl", 0)
        self.cov["bit_drift"] += stats.get("bit_drift", 0)
        for s in stats.get("samples", [])[:2]:
            if len(self.cov["samples"]) < 6:
                self.cov["samples"].append(s)

    def violation(self, replay_obj, text, found_input=None):
        """found_input: True — the replay is an input on which the property itself fails (an oracle derived from the
        property's text fails on the implementation); False — a proof obligation, the build or the extraction broke;
        None — a correspondence between model and implementation broke (replay_obj names it under "broken"): that is
        not by itself a failing input of the property; finish() decides from what else this run found."""
        # BT_VERIF_REPLAY_DIR: runs against a patched tree (tools/try_seed.sh) keep their replay files to themselves
        d = os.environ.get("BT_VERIF_REPLAY_DIR") or os.path.join(VERIF, "work", "replay")
        os.makedirs(d, exist_ok=True)
        path = os.path.join(d, "%s_%d_%d.json" % (self.pid, self.seed, len(self.violations)))
        replay_obj = dict(replay_obj)
        replay_obj["property"] = self.pid
        replay_obj["seed"] = self.seed
        replay_obj["what"] = text
        if found_input is None and "broken" not in replay_obj:
            found_input = True
        common.write_json(path, replay_obj)
        self.violations.append([path, text, found_input, replay_obj])

    def finish(self, theorems, checker_cmd, level="proof", extra_assumptions=()):
        obligations = len(theorems)
        discharged = sum(1 for t in theorems if t["ok"])
        self.cov.update({
            "obligations": obligations, "discharged": discharged, "checker_cmd": checker_cmd,
            "trusted_base": TRUSTED_BASE, "theorems": theorems,
            "assumptions": sorted({a for t in theorems for a in (t.get("axioms") or [])}),
            "known_findings_reproduced": self.known_hits, "notes": self.notes,
        })
        if not self.cov["rule"]:
            self.cov["rule"] = "see suites"
        ev = {"property_id": self.pid, "tier": self.tier, "seed": self.seed, "level": level, "coverage": self.cov,
              "assumptions": list(TRUSTED_BASE) + list(extra_assumptions),
              "wall_s": round(time.time() - self.t0, 2), "violations": len(self.violations)}
        # BT_VERIF_EVIDENCE_DIR: where tools/seed_pass.py sends the evidence of runs against a patched /repo, so that the
        # committed evidence always describes the unchanged tree
        edir = os.environ.get("BT_VERIF_EVIDENCE_DIR") or os.path.join(VERIF, "evidence")
        os.makedirs(edir, exist_ok=True)
        common.write_json(os.path.join(edir, "%s.json" % self.pid), ev)
        for f in load_known():
            if f["property"] == self.pid and f.get("status") == "open":
                seen = f["discriminator"] in self.known_seen
                self.known_hits.append({"id": f["id"], "reproduced_this_run": seen})
                print("KNOWN-FINDING: property=%s %s %s%s" % (self.pid, f["id"], f["what"],
                                                            "" if seen else " (not exercised by this run's inputs)"))
        self.cov["known_findings_reproduced"] = self.known_hits
        # a broken correspondence counts as "failing input found" only when this run's search (the property oracles,
        # evaluated on every implementation run of the pass, the disagreeing ones included) produced one
        any_found = any(v[2] is True for v in self.violations)
        for v in self.violations:
            if v[2] is None:
                v[2] = any_found
                v[3]["failing_input_search"] = (
                    "a failing input of the property was found by this run: see the other replay files of this run"
                    if any_found else
                    "none found: the oracles derived from the property's text hold on every implementation run of this pass, "
                    "including the runs on which model and implementation disagree; the property is no longer shown to hold "
                    "because the correspondence named under 'broken' no longer checks")
                common.write_json(v[0], v[3])
        for path, text, found, _ in self.violations:
            print("VIOLATION property=%s replay=%s%s" % (self.pid, path, "" if found else " no-failing-input-found"))
            print("  " + text)
        return 1 if self.violations else 0

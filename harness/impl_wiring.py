"""Implementation side of the wiring suite (C19): like impl_backtest.py, plus a structural description of the tree
(public attributes only) after construction of the Backtest and after the run:
  WJSON pre|post <json list of nodes: full, name, parent, root, kind, children, lazy, members, intpos, univ, comm_ok>"""
import json
import random
import sys
import warnings

import numpy as np
import pandas as pd

warnings.filterwarnings("ignore")
import bt  # noqa: E402
import bt.core as core  # noqa: E402
from impl_engine import classify, dump_tree, fx, make_comm, install_trace  # noqa: E402
import impl_backtest as ib  # noqa: E402


def describe(root, comm_fn):
    out = []

    def visit(n):
        d = {"full": n.full_name, "name": n.name, "parent": n.parent.full_name, "root": n.root.full_name,
             "kind": "G" if isinstance(n, core.StrategyBase) else "S", "children": list(n.children.keys()),
             "members": [m.full_name for m in n.members], "intpos": bool(n.integer_positions)}
        if isinstance(n, core.StrategyBase):
            d["lazy"] = list(n._lazy_children.keys())
            try:
                d["univ"] = [str(c) for c in n.universe.columns]
            except Exception as e:  # noqa: BLE001
                d["univ"] = ["<%s>" % type(e).__name__]
            d["comm_ok"] = (comm_fn is None) or (n.commission_fn is comm_fn)
        out.append(d)
        for c in n.children.values():
            visit(c)
    visit(root)
    return out


def run_case(c, out):
    out.append("CASE %s" % c["name"])
    idx = pd.DatetimeIndex([ib.ts(x) for x in c["dates"]])
    try:
        data = ib.frame_of(c["prices"], idx)
        comm_fn = make_comm(c["comm"])
        ib.PRESET_COMM[0] = comm_fn if c.get("preset_comm") else None
        ib.SHARED[0] = {} if c.get("share_objects") else None
        root = ib.build_node(c["tree"])
        ib.PRESET_COMM[0] = None
        ib.SHARED[0] = None
        ad = {}
        for k, a in c.get("adata", []):
            ad[ib.key_of(k)] = ib.adata_of(a, idx)
        random.seed(c.get("pyseed", 0))
        np.random.seed(c.get("pyseed", 0))
        b = bt.Backtest(root, data, initial_capital=fx(c["capital"]), commissions=comm_fn,
                        integer_positions=bool(c["intpos"]), additional_data=ad, progress_bar=False)
        out.append("BUILD ok")
        pre = describe(b.strategy, comm_fn)
    except Exception as e:  # noqa: BLE001
        if out[-1] != "BUILD ok":
            out.append("BUILD ok")
        out.append("OP 0 err %s" % classify(e))
        out.append("END")
        return
    try:
        b.run()
    except Exception as e:  # noqa: BLE001
        # the run stopped: the structure it leaves behind is still described (the wiring clauses hold at any time)
        out.append("OP 0 err %s" % classify(e))
        try:
            # only when the tree was set up completely and the first update (on the synthetic first row) went through: an
            # error raised inside setup or inside that first update leaves a half-built structure (e.g. the sub-strategy
            # columns of the universes are written at the end of an update) to which the clauses do not apply
            strategies = [m for m in b.strategy.members if isinstance(m, bt.core.StrategyBase)]
            if all(getattr(m, "now", None) not in (None, 0) for m in strategies) and b.strategy.now > b.dates[0]:
                post = describe(b.strategy, comm_fn)
                out.append("WJSON pre " + json.dumps(pre, separators=(",", ":")))
                out.append("WJSON post " + json.dumps(post, separators=(",", ":")))
        except Exception:  # noqa: BLE001
            pass
        out.append("END")
        return
    out.append("OP 0 ok nan")
    dump_tree(out, b.strategy, b.dates)
    out.append("WJSON pre " + json.dumps(pre, separators=(",", ":")))
    out.append("WJSON post " + json.dumps(describe(b.strategy, comm_fn), separators=(",", ":")))
    out.append("END")


def main():
    install_trace()
    cases = json.load(sys.stdin)
    out = []
    for c in cases:
        run_case(c, out)
    sys.stdout.write("\n".join(out) + "\n")


if __name__ == "__main__":
    main()

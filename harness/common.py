"""Shared plumbing of the bt verification harness: scratch build of /repo, running the
extracted model, s-expression emission, dump parsing and the comparison relation R."""
import json
import math
import os
import shutil
import subprocess
import sys
import tempfile
import time

VERIF = os.path.dirname(os.path.dirname(os.path.abspath(__file__)))
REPO = os.environ.get("BT_REPO", "/repo")
PY = "/venv/bin/python"
MODEL_BIN = os.path.join(VERIF, "coq", "extract", "btmodel")

REL_TOL = 1e-9
ABS_TOL = 1e-12


def make_scratch():
    """Copy /repo's current working tree (bt package only) to a fresh directory outside
    /repo and /verif, without compiled artefacts, so the *interpreted* current source runs."""
    d = tempfile.mkdtemp(prefix="btverif_")
    shutil.copytree(os.path.join(REPO, "bt"), os.path.join(d, "bt"),
                    ignore=shutil.ignore_patterns("*.so", "*.c", "__pycache__", "*.pyc"))
    return d


def make_compiled_scratch():
    """Copy /repo's current working tree and build the Cython extension in the copy (setup.py build_ext --inplace):
    the *compiled* current source.  Raises if the build fails."""
    d = tempfile.mkdtemp(prefix="btverif_cy_")
    for f in ("setup.py", "pyproject.toml", "README.md"):
        if os.path.exists(os.path.join(REPO, f)):
            shutil.copy(os.path.join(REPO, f), d)
    shutil.copytree(os.path.join(REPO, "bt"), os.path.join(d, "bt"),
                    ignore=shutil.ignore_patterns("*.so", "*.c", "__pycache__", "*.pyc"))
    env = dict(os.environ)
    env.pop("PYTHONPATH", None)
    p = subprocess.run([PY, "setup.py", "build_ext", "--inplace"], cwd=d, capture_output=True, text=True, env=env, timeout=1200)
    so = [f for f in os.listdir(os.path.join(d, "bt")) if f.endswith(".so")]
    if p.returncode != 0 or not so:
        shutil.rmtree(d, ignore_errors=True)
        raise RuntimeError("building the compiled extension failed:\n" + (p.stdout + p.stderr)[-3000:])
    shutil.rmtree(os.path.join(d, "build"), ignore_errors=True)
    return d


def impl_env(scratch, hashseed="0"):
    env = dict(os.environ)
    env["PYTHONPATH"] = scratch + os.pathsep + os.path.join(VERIF, "harness")
    env["PYTHONHASHSEED"] = str(hashseed)
    env["PYTHONDONTWRITEBYTECODE"] = "1"
    env.pop("PYTHONSTARTUP", None)
    return env


def core_kind(scratch):
    """'compiled' or 'interpreted': which bt.core the scratch copy really imports"""
    p = subprocess.run([PY, "-c", "import bt.core as c; print(c.__file__)"], capture_output=True, text=True,
                       env=impl_env(scratch), timeout=300)
    f = p.stdout.strip().splitlines()[-1] if p.stdout.strip() else ""
    if not f.startswith(scratch):
        raise RuntimeError("scratch copy does not import its own bt.core: %r %s" % (f, p.stderr[-500:]))
    return "compiled" if f.endswith(".so") else "interpreted"


def run_impl(scratch, script, stdin_text, args=(), hashseed="0", timeout=1800):
    p = subprocess.run([PY, os.path.join(VERIF, "harness", script)] + list(args), input=stdin_text,
                       capture_output=True, text=True, env=impl_env(scratch, hashseed), timeout=timeout)
    if p.returncode != 0:
        raise RuntimeError("implementation driver %s failed:\n%s" % (script, p.stderr[-4000:]))
    return p.stdout


def run_model(sexp_text, binary=MODEL_BIN, timeout=1800):
    p = subprocess.run([binary], input=sexp_text, capture_output=True, text=True, timeout=timeout)
    if p.returncode != 0:
        raise RuntimeError("model driver failed:\n%s" % p.stderr[-4000:])
    return p.stdout


# ---------------------------------------------------------------- s-expressions
def sx(x):
    if isinstance(x, (list, tuple)):
        return "(" + " ".join(sx(y) for y in x) + ")"
    if x is None:
        return "none"
    if x is True:
        return "1"
    if x is False:
        return "0"
    if isinstance(x, float):
        return "nan" if x != x else x.hex()
    return str(x)


def case_to_sexp(c):
    def frame(f):
        return None if f is None else [[k, col] for k, col in f]
    items = ["case", c["name"], ["nrows", c["nrows"]], ["intpos", c["intpos"]], ["comm"] + list(c["comm"]),
             ["prices", frame(c["prices"])], ["bidoffer", frame(c.get("bidoffer"))],
             ["coupons", frame(c.get("coupons"))], ["cost_long", frame(c.get("cost_long"))],
             ["cost_short", frame(c.get("cost_short"))], ["tree", c["tree"]], ["ops", c["ops"]],
             ["dump", c.get("dump", "all")]]
    if c.get("digest"):
        items.append(["digest", True])
    return sx(items)


def _tree_sx(t):
    if t[0] == "sec":
        return ["sec", t[1], t[2], t[3], t[4], True if t[5] == "str" else t[5]]
    if len(t) >= 5:
        head = "late" if (len(t) > 5 and t[5] == "late") else "strat"        # "dict" construction is the same tree
        return [head, t[1], t[2], [_tree_sx(k) for k in t[3]], t[4]]
    return ["strat", t[1], t[2], [_tree_sx(k) for k in t[3]]]


def bt_case_to_sexp(c):
    def frame(f):
        return None if f is None else [[k, col] for k, col in f]
    items = ["backtest", c["name"], ["dates", c["dates"]], ["intpos", c["intpos"]], ["comm"] + list(c["comm"]),
             ["prices", frame(c["prices"])], ["bidoffer", frame(c.get("bidoffer"))],
             ["coupons", frame(c.get("coupons"))], ["cost_long", frame(c.get("cost_long"))],
             ["cost_short", frame(c.get("cost_short"))], ["adata", c.get("adata", [])],
             ["capital", c["capital"]], ["tree", _tree_sx(c["tree"])]]
    if c.get("reports"):
        items.append(["reports", True])
    return sx(items)


# ---------------------------------------------------------------- dumps
def parse_dump(text):
    """-> {case name: {"build": str, "steps": [ {"status": [..], "state": {key: [tokens]}} ]}}"""
    cases = {}
    cur = None
    step = None
    for line in text.splitlines():
        if not line:
            continue
        tok = [x for x in line.split(" ") if x != ""]
        if tok[0] == "CASE":
            cur = {"build": None, "steps": []}
            cases[tok[1]] = cur
            step = None
        elif tok[0] == "BUILD":
            cur["build"] = tok[1:]
            step = {"status": ["BUILD"] + tok[1:], "state": {}}
            cur["steps"].append(step)
        elif tok[0] == "OP":
            step = {"status": tok[1:], "state": {}}
            cur["steps"].append(step)
        elif tok[0] == "END":
            cur = None
        else:
            step["state"][tok[0] + " " + tok[1]] = tok[2:]
    return cases


def tok_val(t):
    if t in ("T", "F", "-", "nan", "ok", "err", "BUILD"):
        return t
    try:
        if t.startswith(("0x", "-0x", "inf", "-inf")):
            return float.fromhex(t)
        return int(t)
    except ValueError:
        return t


def close(a, b):
    """relation R on two tokens: -1 different, 0 bit-equal (modulo the sign of zero), 1 within tolerance"""
    va, vb = tok_val(a), tok_val(b)
    if isinstance(va, float) and isinstance(vb, float):
        if va == vb:
            return 0
        if math.isinf(va) or math.isinf(vb):
            return -1
        if abs(va - vb) <= ABS_TOL + REL_TOL * max(abs(va), abs(vb)):
            return 1
        return -1
    if isinstance(va, float) != isinstance(vb, float):
        try:
            return 0 if float(va) == float(vb) else -1
        except (TypeError, ValueError):
            return -1
    return 0 if va == vb else -1


def stat_tie(model):
    """the key of a per-run trace whose stat holds two equal values: SelectN ranks with pandas' default (numpy, SIMD,
    unstable) sort, so the order of tied entries is not determined by bt and the model cannot decide it"""
    for st in model["steps"]:
        for key, toks in st["state"].items():
            if key.endswith(".stat"):
                vals = [t for t in toks[1::2] if t != "nan"]
                if len(set(tok_val(v) for v in vals)) < len(vals):
                    return key
    return None


def compare_case(impl, model):
    """-> (verdict, detail) verdict in {'equal', 'drift', 'diff'}; detail names the first difference"""
    v, d = _compare_case(impl, model)
    if v == "diff":
        tie = stat_tie(model)
        if tie is not None:
            return "equal", {"unordered_stat_tie": tie, "difference_ignored": d}
    return v, d


def _compare_case(impl, model):
    drift = None
    if len(impl["steps"]) != len(model["steps"]):
        # one side stopped earlier: find out where the statuses diverge
        pass
    for k in range(max(len(impl["steps"]), len(model["steps"]))):
        if k >= len(impl["steps"]) or k >= len(model["steps"]):
            return "diff", {"step": k, "what": "number of executed steps differs",
                            "impl_steps": len(impl["steps"]), "model_steps": len(model["steps"])}
        si, sm = impl["steps"][k], model["steps"][k]
        sti, stm = si["status"], sm["status"]
        if len(stm) >= 3 and stm[1] == "err" and stm[2] == "ENanArith" and sti[1] == "ok":
            # the model refuses to let a NaN enter the books; Python books it (and raises at the
            # next update).  Accept iff the implementation state now really carries a NaN.
            # (histories dumped with dump="last" carry a state only at their last step: a NaN in the books stays there)
            st_nan = si["state"] or next((s_["state"] for s_ in impl["steps"][k:] if s_["state"]), {})
            has_nan = any("nan" in v for key, v in st_nan.items() if key.endswith(" scal"))
            if not has_nan and not st_nan:
                # no state was dumped at all (the history ends in an error): the NaN shows as the error Python raises at
                # its next update
                has_nan = any(len(s_["status"]) >= 3 and s_["status"][1] == "err" and
                              (s_["status"][2].startswith("ENan") or s_["status"][2] == "EBadPrice")   # "... because price is nan"
                              for s_ in impl["steps"][k + 1:])
            if has_nan:
                return ("drift" if drift else "equal"), {"nan_refused_at": k}
            return "diff", {"step": k, "what": "status", "impl": sti, "model": stm}
        if len(sti) != len(stm) or any(close(x, y) < 0 for x, y in zip(sti, stm)):
            return "diff", {"step": k, "what": "status", "impl": sti, "model": stm}
        if any(close(x, y) > 0 for x, y in zip(sti, stm)):
            drift = drift or {"step": k, "what": "status", "impl": sti, "model": stm}
        ki, km = set(si["state"]), set(sm["state"])
        if ki != km:
            return "diff", {"step": k, "what": "keys", "only_impl": sorted(ki - km)[:8], "only_model": sorted(km - ki)[:8]}
        for key in sorted(ki):
            a, b = si["state"][key], sm["state"][key]
            if len(a) != len(b):
                return "diff", {"step": k, "key": key, "impl": a, "model": b}
            for j, (x, y) in enumerate(zip(a, b)):
                r = close(x, y)
                if r < 0:
                    return "diff", {"step": k, "key": key, "index": j, "impl": x, "model": y,
                                    "impl_v": str(tok_val(x)), "model_v": str(tok_val(y))}
                if r > 0 and drift is None:
                    drift = {"step": k, "key": key, "index": j, "impl": x, "model": y}
    if drift:
        return "drift", drift
    return "equal", None


class Timer:
    def __init__(self):
        self.t0 = time.time()

    def s(self):
        return round(time.time() - self.t0, 2)


def write_json(path, obj):
    os.makedirs(os.path.dirname(path), exist_ok=True)
    with open(path, "w") as f:
        json.dump(obj, f, indent=1, sort_keys=True, default=str)

"""Implementation side of the scheduler / stack / calendar suites (runs against the scratch copy)."""
import json
import sys
import warnings

import pandas as pd

warnings.filterwarnings("ignore")
import bt  # noqa: E402
import bt.core as core  # noqa: E402
import bt.algos as algos  # noqa: E402
from impl_backtest import make_algo, ts  # noqa: E402
from impl_engine import classify  # noqa: E402


class Target:
    """the few attributes the schedulers read"""

    def __init__(self, dates):
        self.data = pd.DataFrame(index=pd.DatetimeIndex([ts(x) for x in dates]))
        self.now = 0
        self.temp = {}
        self.perm = {}


class Mock(core.Algo):
    def __init__(self, ident, results, log):
        super().__init__()
        self.ident, self.results, self.log = ident, list(results), log

    def __call__(self, target):
        self.log.append(self.ident)
        if self.results:
            return bool(self.results.pop(0))
        return True


def make(a, log):
    k = a[0]
    if k == "mock":
        return Mock(a[1], a[2], log)
    if k == "always":
        inner = make(a[2], log)
        inner.run_always = bool(a[1])
        return inner
    if k == "stack":
        return core.AlgoStack(*[make(x, log) for x in a[1]])
    if k == "or":
        return algos.Or([make(x, log) for x in a[1]])
    if k == "not":
        return algos.Not(make(a[1], log))
    return make_algo(a)


def pb(b):
    return "T" if b else "F"


def run_sched(c):
    tgt = Target(c["dates"])
    algo = make_algo(c["algo"])
    idx = tgt.data.index
    out = []
    for r in c["calls"]:
        tgt.now = None if r is None else idx[r]
        try:
            out.append(pb(algo(tgt)))
        except Exception as e:  # noqa: BLE001
            out.append(classify(e))
            break
    return out


def run_periodat(c):
    """RunPeriod.__call__ with target.now set to arbitrary timestamps, on or off the data index"""
    tgt = Target(c["dates"])
    algo = make_algo(c["algo"])
    out = []
    for z in c["stamps"]:
        tgt.now = ts(z)
        try:
            out.append(pb(algo(tgt)))
        except Exception as e:  # noqa: BLE001
            out.append(classify(e))
    return out


def run_stack(c):
    log = []
    s = bt.Strategy("s", [make(a, log) for a in c["algos"]])
    res = []
    orig = s.stack

    class Spy:
        def __call__(self, target):
            r = orig(target)
            res.append(bool(r))
            return r
    s.stack = Spy()
    try:
        for _ in range(c["n"]):
            s.temp = {"junk": 1}
            s.run()
            if s.temp:
                return ["err", "temp-not-cleared"]
    except Exception as e:  # noqa: BLE001
        return ["err", classify(e)]
    return ["log", ",".join(str(x) for x in log), "res", ",".join(pb(b) for b in res)]


def main():
    req = json.load(sys.stdin)
    out = {}
    if "sched" in req:
        out["sched"] = [run_sched(c) for c in req["sched"]]
    if "stack" in req:
        out["stack"] = [run_stack(c) for c in req["stack"]]
    if "periodat" in req:
        out["periodat"] = [run_periodat(c) for c in req["periodat"]]
    if "cal" in req:
        idx = pd.DatetimeIndex(pd.to_datetime(req["cal"], unit="s"))
        iso = idx.isocalendar()
        out["cal"] = [[int(a), int(b), int(c), int(d), int(e), int(f), int(g)] for a, b, c, d, e, f, g in
                      zip(idx.year, idx.month, idx.day, idx.quarter, iso["week"], idx.dayofweek, iso["year"])]
    if "suboff" in req:
        res = []
        for t, m, d in req["suboff"]:
            x = pd.Timestamp(int(t), unit="s") - pd.DateOffset(months=int(m), days=int(d))
            res.append(int(x.value // 10 ** 9))
        out["suboff"] = res
    json.dump(out, sys.stdout)


if __name__ == "__main__":
    main()

"""Per-run cross-check of the extracted OCaml binary against the kernel's own evaluation (vm_compute) of the same
Gallina definitions: a sample of the run's engine cases is (a) run through btmodel, which prints the number of applied
operations and a digest (every live number and history row of every node of the last good tree), and (b) emitted as
Gallina terms by coq_emit.py — a path independent of driver.ml's parser — into cases.v, where
`Eval vm_compute in (applied = n && same_cells digest expected)` must print true for every case."""
import os
import re
import shutil
import subprocess
import tempfile

import common
import coq_emit


def crosscheck(cases, model_bin=None, coq_dir=None, workdir=None, timeout=900):
    model_bin = model_bin or common.MODEL_BIN
    coq_dir = coq_dir or os.path.join(common.VERIF, "coq")
    # a private directory per call: two checks may run at the same time
    base = workdir or os.path.join(common.VERIF, "work")
    os.makedirs(base, exist_ok=True)
    workdir = tempfile.mkdtemp(prefix="vmx_", dir=base)
    sexps = []
    for c in cases:
        d = dict(c, dump="last", digest=True)
        sexps.append(common.case_to_sexp(d))
    out = common.run_model("\n".join(sexps), binary=model_bin)
    expected = {}
    cur = None
    for line in out.splitlines():
        if line.startswith("CASE "):
            cur = line.split(" ")[1]
            expected[cur] = (0, [])
        elif line.startswith("DIGEST "):
            tok = line.split(" ")
            expected[cur] = (int(tok[1]), tok[2:])
    txt = coq_emit.HEADER
    for k, c in enumerate(cases):
        n, cells = expected.get(c["name"], (0, []))
        txt += coq_emit.case_defs(c, k)
        txt += "Definition e_%d : list (option float) := %s.\n" % (k, coq_emit.lst(coq_emit.cell(x) for x in cells))
        txt += "Eval vm_compute in (Nat.eqb (snd r_%d) %d && same_cells (fst r_%d) e_%d).\n" % (k, n, k, k)
    path = os.path.join(workdir, "cases.v")
    open(path, "w").write(txt)
    p = subprocess.run(["coqc", "-Q", coq_dir, "BT", "-w", "-abstract-large-number", path], capture_output=True, text=True,
                       timeout=timeout, cwd=workdir)
    shutil.rmtree(workdir, ignore_errors=True)
    res = re.findall(r"=\s*(true|false)", p.stdout)
    ok = p.returncode == 0 and len(res) == len(cases)
    bad = [cases[i]["name"] for i, r in enumerate(res) if r != "true"]
    return {"cases": len(cases), "evaluated": len(res), "equal": sum(1 for r in res if r == "true"), "differing": bad[:5],
            "coqc_ok": ok, "stderr": p.stderr[-800:] if not ok else "",
            "digest_cells": sum(len(expected.get(c["name"], (0, []))[1]) for c in cases),
            "ops_applied": sum(expected.get(c["name"], (0, []))[0] for c in cases)}

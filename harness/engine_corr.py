"""Engine correspondence suite: generated operation histories replayed on the real bt
(scratch copy of /repo) and on the extracted float model; raw state compared after every op."""
import json
import os
import sys

sys.path.insert(0, os.path.dirname(os.path.abspath(__file__)))
import common  # noqa: E402
import gen_engine  # noqa: E402


def run_cases(cases, scratch, chunk=200):
    """-> list of (case, verdict, detail, impl_case, model_case)"""
    results = []
    for i in range(0, len(cases), chunk):
        part = cases[i:i + chunk]
        impl_out = common.run_impl(scratch, "impl_engine.py", json.dumps(part))
        model_out = common.run_model("\n".join(common.case_to_sexp(c) for c in part))
        di, dm = common.parse_dump(impl_out), common.parse_dump(model_out)
        for c in part:
            if c["name"] not in di or c["name"] not in dm:
                results.append((c, "diff", {"what": "case missing from output"}, None, None))
                continue
            v, d = common.compare_case(di[c["name"]], dm[c["name"]])
            results.append((c, v, d, di[c["name"]], dm[c["name"]]))
    return results


def prune_invalid(cases, seed, keep_err=0.12, rounds=14):
    """Make histories mostly valid: ask the *model* where each history first errors and delete
    that op (with probability 1 - keep_err), repeatedly.  The implementation is not consulted,
    so this only shapes the input distribution."""
    import random
    rng = random.Random(seed * 7919 + 13)
    final = {}
    live = list(cases)
    for _ in range(rounds):
        if not live:
            break
        probe = [dict(c, dump="last") for c in live]
        out = common.parse_dump(common.run_model("\n".join(common.case_to_sexp(c) for c in probe)))
        nxt = []
        for c in live:
            steps = out[c["name"]]["steps"]
            st = steps[-1]["status"] if steps else ["BUILD", "err"]
            if st[0] != "BUILD" and len(st) > 1 and st[1] == "err" and rng.random() > keep_err:
                k = int(st[0])
                c = dict(c)
                c["ops"] = c["ops"][:k] + c["ops"][k + 1:]
                nxt.append(c)
            else:
                final[c["name"]] = c
        live = nxt
    for c in live:
        final[c["name"]] = c
    return [final[c["name"]] for c in cases]


def shrink(case, scratch, still_bad):
    """greedy delta-debugging on the op list (keeps the first two set-up ops)"""
    ops = case["ops"]
    changed = True
    while changed:
        changed = False
        i = len(ops) - 1
        while i >= 2:
            cand = dict(case)
            cand["ops"] = ops[:i] + ops[i + 1:]
            if still_bad(cand):
                ops = cand["ops"]
                changed = True
            i -= 1
    out = dict(case)
    out["ops"] = ops
    return out


def main():
    seed = int(sys.argv[1]) if len(sys.argv) > 1 else 1
    n = int(sys.argv[2]) if len(sys.argv) > 2 else 100
    scratch = common.make_scratch()
    try:
        cases = prune_invalid(gen_engine.gen_cases(seed, n), seed)
        res = run_cases(cases, scratch)
        tally = {}
        for c, v, d, _, _ in res:
            tally[v] = tally.get(v, 0) + 1
        print(tally)
        groups = {}
        for c, v, d, _, _ in res:
            if v != "equal":
                k = (v, d.get("what") or d.get("key", "").split(" ")[-1], str(d.get("impl"))[:40], str(d.get("model"))[:40])
                groups.setdefault(k, []).append(c["name"])
        for k, names in sorted(groups.items(), key=lambda kv: -len(kv[1]))[:25]:
            print(len(names), k, names[:3])
        shown = 0
        for c, v, d, ic, mc in res:
            if v == "diff" and shown < int(os.environ.get("SHOW", "3")):
                shown += 1

                def bad(cand):
                    r = run_cases([cand], scratch)[0]
                    return r[1] == "diff"
                small = shrink(c, scratch, bad)
                r = run_cases([small], scratch)[0]
                print("DIFF", c["name"], json.dumps(r[2]))
                print(json.dumps(small))
        errs = {}
        for c, v, d, ic, mc in res:
            if ic:
                st = ic["steps"][-1]["status"]
                k = st[2] if len(st) > 2 and st[1] == "err" else "completed"
                errs[k] = errs.get(k, 0) + 1
        print("final status histogram (impl):", errs)
        nsteps = [len(ic["steps"]) - 1 for c, v, d, ic, mc in res if ic]
        print("ops executed: total %d mean %.1f" % (sum(nsteps), sum(nsteps) / max(1, len(nsteps))))
    finally:
        import shutil
        shutil.rmtree(scratch, ignore_errors=True)


if __name__ == "__main__":
    main()

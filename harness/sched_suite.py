"""Scheduler (C12), calendar and stack (C13) correspondence suites: small finite spaces enumerated
exhaustively on the real algos (mock target) and on the model's interpreter."""
import itertools
import json
import os
import random
import sys

sys.path.insert(0, os.path.dirname(os.path.abspath(__file__)))
import common  # noqa: E402

D = 86400


def ts(y, m, d, h=0, mi=0):
    import calendar
    return calendar.timegm((y, m, d, h, mi, 0))


POOL = sorted({
    ts(2018, 12, 28), ts(2018, 12, 31), ts(2019, 1, 1), ts(2019, 1, 2), ts(2019, 1, 7),
    ts(2019, 12, 30), ts(2019, 12, 31), ts(2020, 1, 1), ts(2020, 1, 6),
    ts(2020, 2, 28), ts(2020, 2, 29), ts(2020, 3, 1), ts(2020, 3, 31), ts(2020, 4, 1),
    ts(2020, 6, 15, 9, 30), ts(2020, 6, 15, 16, 0), ts(2020, 6, 16), ts(2020, 7, 15),
    ts(2020, 12, 27), ts(2020, 12, 28), ts(2021, 1, 3), ts(2021, 1, 4), ts(2021, 1, 15), ts(2021, 2, 15),
    ts(2021, 12, 31), ts(2022, 1, 1), ts(2022, 1, 3),
})
KINDS = ["daily", "weekly", "monthly", "quarterly", "yearly"]


def period_cases(max_size, rng=None, limit=None):
    cases = []
    subsets = []
    for k in range(1, max_size + 1):
        subsets += list(itertools.combinations(POOL, k))
    if limit and len(subsets) > limit:
        rng.shuffle(subsets)
        subsets = subsets[:limit]
    for sub in subsets:
        dates = [sub[0] - D] + list(sub)          # the synthetic first row, as Backtest adds it
        for kind in KINDS:
            for flags in itertools.product([0, 1], repeat=3):
                cases.append({"algo": ["runperiod", kind, flags[0], flags[1], flags[2]], "dates": dates,
                              "calls": list(range(len(dates)))})
    return cases


def periodat_cases(rng, n):
    """RunDaily..RunYearly asked about timestamps ON and OFF the data index: the day before the data, days inside gaps of
    the index (weekends, holidays), intraday stamps of index days, days after the last date"""
    cases = []
    for _ in range(n):
        mode = rng.choice(["pool", "bday", "gappy"])
        if mode == "pool":
            sub = sorted(rng.sample(POOL, rng.randint(2, 5)))
        else:
            t = rng.choice(POOL) // D * D
            sub = []
            while len(sub) < rng.randint(4, 12):
                wd = (t // D + 3) % 7
                if not (mode == "bday" and wd >= 5) and not (mode == "gappy" and rng.random() < 0.4):
                    sub.append(t)
                t += D
        dates = [sub[0] - D] + list(sub)
        stamps = set(dates)
        stamps.update([dates[0] - D, dates[0] - 40 * D, dates[-1] + D, dates[-1] + 3 * D, dates[-1] + 400 * D])
        for a, b in zip(dates, dates[1:]):
            if b - a > D:
                stamps.add(a + D * rng.randint(1, (b - a) // D - 1) if (b - a) // D > 1 else a + D)
                stamps.add(b - D)
            stamps.add(a + rng.choice([3600, 43200, D - 1]))
        stamps = sorted(stamps)
        kind = rng.choice(KINDS)
        flags = [rng.randint(0, 1) for _ in range(3)]
        cases.append({"algo": ["runperiod", kind, flags[0], flags[1], flags[2]], "dates": dates, "stamps": stamps})
    return cases


def model_periodat(cases):
    text = "\n".join(common.sx(["periodat", "p%d" % i, c["algo"], c["dates"], c["stamps"]]) for i, c in enumerate(cases))
    out = common.run_model(text)
    res = {}
    for line in out.splitlines():
        tok = line.split(" ")
        if tok[0] == "PERIODAT":
            res[int(tok[1][1:])] = tok[2:]
    return [res.get(i) for i in range(len(cases))]


def run_periodat(scratch, cases):
    impl = json.loads(common.run_impl(scratch, "impl_sched.py", json.dumps({"periodat": cases})))["periodat"]
    model = model_periodat(cases)
    return list(zip(cases, impl, model))


def counter_cases(rng, n):
    cases = []
    for _ in range(n):
        nd = rng.randint(2, 8)
        start = rng.choice(POOL)
        dates = [start - D] + [start + D * i * rng.choice([1, 1, 2]) for i in range(nd)]
        dates = sorted(set(dates))
        calls = []
        row = 0
        for _ in range(rng.randint(3, 14)):
            if rng.random() < 0.7 and row + 1 < len(dates):
                row += 1
            calls.append(row)
        k = rng.choice(["runonce", "afterdays", "everyn", "ondate", "afterdate", "not", "or"])
        if k == "runonce":
            a = ["runonce"]
        elif k == "afterdays":
            a = ["runafterdays", rng.randint(0, 6)]
        elif k == "everyn":
            n_ = rng.randint(1, 5)
            a = ["everyn", n_, rng.randint(0, n_ + 3)]
        elif k == "ondate":
            a = ["runondate", sorted(rng.sample(dates, rng.randint(1, min(3, len(dates)))))]
        elif k == "afterdate":
            a = ["runafterdate", rng.choice(dates)]
        elif k == "not":
            a = ["not", ["runafterdays", rng.randint(0, 4)]]
        else:
            a = ["or", [["runonce"], ["everyn", rng.randint(1, 3), 0]]]
        cases.append({"algo": a, "dates": dates, "calls": calls})
    return cases


def stack_cases(max_len, nruns=2):
    """all stacks of length <= max_len over {T, F} x {plain, run_always=True, run_always=False},
    scripted per run; plus nested stacks and Or branches"""
    cases = []
    kinds = ["plain", "ra1", "ra0"]
    for ln in range(0, max_len + 1):
        for spec in itertools.product(itertools.product([0, 1], kinds), repeat=ln):
            algos = []
            for i, (res, kd) in enumerate(spec):
                m = ["mock", i + 1, [res, 1 - res][:nruns]]
                if kd == "ra1":
                    m = ["always", 1, m]
                elif kd == "ra0":
                    m = ["always", 0, m]
                algos.append(m)
            cases.append({"algos": algos, "n": nruns})
    return cases


def nested_stack_cases(rng, n):
    cases = []

    def leaf(i):
        m = ["mock", i, [rng.randint(0, 1), rng.randint(0, 1)]]
        u = rng.random()
        if u < 0.25:
            return ["always", 1, m]
        if u < 0.35:
            return ["always", 0, m]
        return m
    for _ in range(n):
        cnt = [0]

        def nid():
            cnt[0] += 1
            return cnt[0]

        def gen(depth):
            u = rng.random()
            if depth >= 2 or u < 0.55:
                return leaf(nid())
            if u < 0.75:
                return ["stack", [gen(depth + 1) for _ in range(rng.randint(0, 3))]]
            if u < 0.9:
                return ["or", [gen(depth + 1) for _ in range(rng.randint(0, 4))]]
            return ["not", gen(depth + 1)]
        cases.append({"algos": [gen(0) for _ in range(rng.randint(1, 5))], "n": 2})
    return cases


def model_sched(cases):
    text = "\n".join(common.sx(["sched", "s%d" % i, c["algo"], c["dates"],
                                [("none" if x is None else x) for x in c["calls"]]]) for i, c in enumerate(cases))
    out = common.run_model(text)
    res = {}
    for line in out.splitlines():
        tok = line.split(" ")
        if tok[0] == "SCHED":
            res[int(tok[1][1:])] = tok[2:]
    return [res.get(i) for i in range(len(cases))]


def model_stack(cases):
    text = "\n".join(common.sx(["stackrun", "k%d" % i, c["n"], c["algos"]]) for i, c in enumerate(cases))
    out = common.run_model(text)
    res = {}
    for line in out.splitlines():
        tok = line.split(" ")
        if tok[0] == "STACK":
            res[int(tok[1][1:])] = tok[2:]
    return [res.get(i) for i in range(len(cases))]


def run_sched(scratch, cases, chunk=20000):
    """-> list of (case, impl tokens, model tokens)"""
    out = []
    for i in range(0, len(cases), chunk):
        part = cases[i:i + chunk]
        impl = json.loads(common.run_impl(scratch, "impl_sched.py", json.dumps({"sched": part})))["sched"]
        model = model_sched(part)
        out += list(zip(part, impl, model))
    return out


def run_stack(scratch, cases, chunk=20000):
    out = []
    for i in range(0, len(cases), chunk):
        part = cases[i:i + chunk]
        impl = json.loads(common.run_impl(scratch, "impl_sched.py", json.dumps({"stack": part})))["stack"]
        model = model_stack(part)
        out += list(zip(part, impl, model))
    return out


# ---------------------------------------------------------------- calendar
def cal_days(tier, rng):
    lo, hi = -106751, 106751          # 1677-09-22 .. 2262-04-10 (the pd.Timestamp day range)
    if tier == "thorough":
        return list(range(lo, hi + 1))
    days = set(range(lo, hi + 1, 11))
    for y in range(1678, 2262, 3):
        import calendar
        b = calendar.timegm((y, 1, 1, 0, 0, 0)) // D
        days.update(range(b - 8, b + 9))
    return sorted(days)


def run_calendar(scratch, tier, rng):
    days = cal_days(tier, rng)
    stamps = [d * D + (rng.randint(0, D - 1) if rng.random() < 0.2 else 0) for d in days]
    offs = []
    for _ in range(3000 if tier == "quick" else 40000):
        offs.append([rng.choice(stamps[2000:-2000]), rng.randint(0, 30), rng.randint(0, 45)])
    impl = json.loads(common.run_impl(scratch, "impl_sched.py", json.dumps({"cal": stamps, "suboff": offs})))
    out = common.run_model("(cal %s)\n(suboff (%s))" % (" ".join(str(x) for x in stamps),
                                                         " ".join("(%d %d %d)" % tuple(o) for o in offs)))
    lines = [ln for ln in out.splitlines() if ln]
    model_cal = [[int(x) for x in ln.split(" ")] for ln in lines[:len(stamps)]]
    model_off = [int(ln) for ln in lines[len(stamps):]]
    bad = []
    for s, a, b in zip(stamps, impl["cal"], model_cal):
        if a != b[:7]:
            bad.append({"ts": s, "impl": a, "model": b[:7]})
    for o, a, b in zip(offs, impl["suboff"], model_off):
        if a != b:
            bad.append({"suboff": o, "impl": a, "model": b})
    return {"days": len(stamps), "offsets": len(offs), "mismatches": bad[:5], "n_mismatch": len(bad)}
